//! C10 - a message reaches only its own exchange, and the receive path never wedges.  Replays TLC-generated disturbance
//! schedules (RxSlot.tla: a handler policy per exchange id, then a sequence of peer datagrams with any exchange id /
//! initiator flag / reliable flag, possibly a CloseSession) against a real device `Matter` whose two responder handlers
//! follow the policies; the peer is a raw injector holding the keys of two planted sessions.  Afterwards a fresh probe
//! request must be answered.  Records Inj / AppRx / Tx / Probe / End events for validation against RxSlotProp.

use core::cell::RefCell;
use core::pin::pin;

use embassy_futures::select::{select, select4, Either};
use serde_json::{json, Value};

use rs_matter::crypto::{test_only_crypto, CanonAeadKey};
use rs_matter::dm::devices::test::{TEST_DEV_ATT, TEST_DEV_COMM, TEST_DEV_DET};
use rs_matter::error::Error;
use rs_matter::transport::exchange::{Exchange, MessageMeta};
use rs_matter::transport::network::NoNetwork;
use rs_matter::transport::packet::PacketHdr;
use rs_matter::utils::storage::{ParseBuf, WriteBuf};
use rs_matter::Matter;

use crate::c03::{key, plant};
use crate::sim::{self, Rx, Tx};
use crate::util::{arg, read_ndjson, Trace};
use crate::world::{drive, Limits, Step, TapDecoder};

const PROTO: u16 = 0x7777;
const NODE_A: u64 = 100;

/// A secured datagram from the peer (node A's end of session `s`) to the device.
fn craft(s: u8, ctr: u32, exch: u16, init: bool, rel: bool, proto: u16, opcode: u8, payload: &[u8]) -> Vec<u8> {
    let mut hdr = PacketHdr::new();
    hdr.plain.sess_id = 10 + s as u16;
    hdr.plain.ctr = ctr;
    hdr.proto.exch_id = exch;
    hdr.proto.proto_id = proto;
    hdr.proto.proto_opcode = opcode;
    if init {
        hdr.proto.set_initiator();
    }
    if rel {
        hdr.proto.set_reliable();
    } else {
        hdr.proto.unset_reliable();
    }
    let mut buf = vec![0u8; 256];
    let mut wb = WriteBuf::new(&mut buf);
    wb.reserve(PacketHdr::HDR_RESERVE).unwrap();
    wb.append(payload).unwrap();
    hdr.encode(test_only_crypto(), Some(key(0x10 + s).reference()), NODE_A, &mut wb).unwrap();
    wb.as_slice().to_vec()
}

fn unsecured_status() -> Vec<u8> {
    // an unsecured SessionNotFound status report on the secure channel protocol, no initiator flag, unknown exchange
    let mut hdr = PacketHdr::new();
    hdr.plain.sess_id = 0;
    hdr.plain.ctr = 1;
    hdr.plain.set_src_nodeid(Some(0));
    hdr.proto.exch_id = 0x4000;
    hdr.proto.proto_id = 0;
    hdr.proto.proto_opcode = 0x40;
    hdr.proto.unset_reliable();
    let mut buf = vec![0u8; 128];
    let mut wb = WriteBuf::new(&mut buf);
    wb.reserve(PacketHdr::HDR_RESERVE).unwrap();
    wb.append(&[1, 0, 0, 0, 0, 0, 5, 0]).unwrap();
    hdr.encode(test_only_crypto(), None, 0, &mut wb).unwrap();
    wb.as_slice().to_vec()
}

/// the exchange id a crafted message says it was sent on (bytes 4..6 of its payload; older payloads: byte 0)
fn sent_on(p: &[u8]) -> u32 {
    if p.len() >= 6 { u16::from_le_bytes([p[4], p[5]]) as u32 } else { p.first().copied().unwrap_or(0) as u32 }
}
fn unmap(e: u16) -> u32 {
    if (100..110).contains(&e) { (e - 100) as u32 } else { e as u32 }
}

fn one_run(ops: &[Value], tr: &mut Trace) -> (usize, String) {
    sim::clock_reset();
    let net = sim::new_net();
    let b = Matter::new(&TEST_DEV_DET, TEST_DEV_COMM, &TEST_DEV_ATT, 5540);
    plant(&b, 1, false, false);
    plant(&b, 2, false, false);
    plant(&b, 3, false, false);
    let crypto = test_only_crypto();
    // policy per exchange id (1..3): from the first op
    let pol: Vec<String> = match &ops[0]["p"] {
        Value::Array(a) => a.iter().map(|x| x.as_str().unwrap().to_string()).collect(),
        Value::Object(m) => (1..=m.len()).map(|i| m[&i.to_string()].as_str().unwrap().to_string()).collect(),
        _ => Vec::new(),
    };
    let policy = |e: u8| -> &str {
        if e == 200 {
            "reply"
        } else {
            pol.get((e as usize).wrapping_sub(1)).map(|s| s.as_str()).unwrap_or("reply")
        }
    };
    let events: RefCell<Vec<Value>> = RefCell::new(Vec::new());
    let handler = |x: u8| {
        let events = &events;
        let b = &b;
        let policy = &policy;
        async move {
            loop {
                let Ok(mut ex) = Exchange::accept(b).await else { break };
                // which (session, exchange id) did this handler really get?  From the device's own tables.
                let raw = ex.id().verif_raw();
                let (own_s, own_e) = b.with_state(|st| {
                    let snap = st.verif_snapshot();
                    snap.sessions.sessions.iter().find(|x| x.id == (raw & 0x0fff_ffff)).map(|x| {
                        let e = x.exchanges.iter().find(|e| e.index == (raw >> 28) as usize).map(|e| e.exch_id).unwrap_or(0);
                        ((x.local_sess_id - 10) as u32, if e >= 100 && e < 110 { (e - 100) as u32 } else { e as u32 })
                    }).unwrap_or((0, 0))
                });
                let r: Result<(), Error> = async {
                    let (first, ts, minit, tag, sq) = {
                        let rx = ex.recv().await?;
                        let p = rx.payload();
                        (p.first().copied().unwrap_or(0), p.get(2).copied().unwrap_or(0), p.get(3).copied().unwrap_or(1) != 0, sent_on(p), p.get(1).copied().unwrap_or(0))
                    };
                    events.borrow_mut().push(json!({"ev": "AppRx", "x": x, "role": "rsp", "opening": true, "sq": sq, "minit": minit, "s": own_s, "ex": own_e, "ts": ts, "tag": if first == 200 { 900 } else { tag }, "t": sim::now_ms(), "seq": sim::next_seq()}));
                    match policy(first) {
                        "reply" => {
                            ex.send(MessageMeta::new(PROTO, 0x80, false), &[first]).await?;
                        }
                        "drop" => {}
                        "relDrop" => {
                            // a reliable answer, and the exchange is dropped while it is still unacknowledged
                            let _ = select(ex.send(MessageMeta::new(PROTO, 0x81, true), &[first]), embassy_time::Timer::after_millis(20)).await;
                        }
                        _ => {
                            // hold: keep receiving on this exchange for two seconds
                            let mut hold = pin!(embassy_time::Timer::after_secs(2));
                            loop {
                                match select(ex.recv(), &mut hold).await {
                                    Either::First(Ok(rx)) => {
                                        let tag = sent_on(rx.payload());
                                        let ts = rx.payload().get(2).copied().unwrap_or(0);
                                        let minit = rx.payload().get(3).copied().unwrap_or(1) != 0;
                                        let sq = rx.payload().get(1).copied().unwrap_or(0);
                                        events.borrow_mut().push(json!({"ev": "AppRx", "x": x, "role": "rsp", "opening": false, "sq": sq, "minit": minit, "s": own_s, "ex": own_e, "ts": ts, "tag": tag, "t": sim::now_ms(), "seq": sim::next_seq()}));
                                    }
                                    _ => break,
                                }
                            }
                        }
                    }
                    Ok(())
                }
                .await;
                let _ = r;
                drop(ex);
            }
            core::future::pending::<()>().await
        }
    };
    // the device's own application: on request it initiates an exchange on session s, sends one message that asks for
    // no acknowledgement and listens for three seconds
    let dev_cmd: RefCell<std::collections::VecDeque<u8>> = RefCell::new(Default::default());
    let dev_waker: RefCell<Option<core::task::Waker>> = RefCell::new(None);
    let dev_exch: core::cell::Cell<u16> = core::cell::Cell::new(0);
    let devapp = async {
        loop {
            let ss = core::future::poll_fn(|cx| match dev_cmd.borrow_mut().pop_front() {
                Some(s) => core::task::Poll::Ready(s),
                None => {
                    *dev_waker.borrow_mut() = Some(cx.waker().clone());
                    core::task::Poll::Pending
                }
            })
            .await;
            let sid = b.with_state(|st| st.verif_snapshot().sessions.sessions.iter().find(|x| x.local_sess_id == 10 + ss as u16).map(|x| x.id));
            let Some(sid) = sid else { continue };
            let Ok(mut ex) = Exchange::initiate_for_session(&b, &crypto, sid) else { continue };
            let raw = ex.id().verif_raw();
            let eid = b.with_state(|st| st.verif_snapshot().sessions.sessions.iter().find(|x| x.id == (raw & 0x0fff_ffff)).and_then(|x| x.exchanges.iter().find(|e| e.index == (raw >> 28) as usize).map(|e| e.exch_id)).unwrap_or(0));
            dev_exch.set(eid);
            events.borrow_mut().push(json!({"ev": "DevInit", "s": ss, "e": unmap(eid), "t": sim::now_ms(), "seq": sim::next_seq()}));
            let _ = ex.send(MessageMeta::new(PROTO, 0x70, false), &[77]).await;
            let mut hold = pin!(embassy_time::Timer::after_secs(3));
            loop {
                match select(ex.recv(), &mut hold).await {
                    Either::First(Ok(rx)) => {
                        let p = rx.payload();
                        events.borrow_mut().push(json!({"ev": "AppRx", "x": 9, "role": "ini", "opening": false, "sq": p.get(1).copied().unwrap_or(0), "minit": p.get(3).copied().unwrap_or(1) != 0, "s": ss, "ex": unmap(eid), "ts": p.get(2).copied().unwrap_or(0), "tag": sent_on(p), "t": sim::now_ms(), "seq": sim::next_seq()}));
                    }
                    _ => break,
                }
            }
            drop(ex);
        }
    };
    let mut all = pin!(select4(
        b.run(&crypto, Tx(net.clone(), 1), Rx(net.clone(), 1), NoNetwork),
        handler(1),
        handler(2),
        devapp
    ));

    let mut dec = TapDecoder::default();
    let kba = |s: u8| {
        let mut k = CanonAeadKey::new();
        k.access_mut().copy_from_slice(&[0x20 + s; 16]);
        k
    };
    dec.keys.insert((1, 21), (kba(1), 200));
    dec.keys.insert((1, 22), (kba(2), 201));
    dec.keys.insert((1, 23), (kba(3), 202));
    let mut ctr = [1000u32, 1000u32, 1000u32];
    let mut opi = 1usize;
    let mut phase = 0; // 0 = schedule, 1 = waiting before probe, 2 = probe sent, 3 = wind down
    let mut tapped = 0usize;
    let mut seqno = 0u8;
    let mut probe_answered = false;
    let mut n_inj = 0usize;
    let mut settle = 0;
    let mut wait_until = 0u64;
    let mut probe_wait_set = false;
    let mut out: Vec<Value> = Vec::new();
    // sequence number of a crafted message -> (session id on the wire, message counter)
    let mut sent: std::collections::HashMap<u8, (u16, u32)> = Default::default();

    let end = drive(all.as_mut(), &net, &Limits { max_virtual_ms: 120_000, ..Default::default() }, |net| {
        // tap: what the device sent
        {
            let mut n = net.borrow_mut();
            n.wire.clear();
            while tapped < n.tap.len() {
                let d = n.tap[tapped].clone();
                tapped += 1;
                let t = dec.decode(&d);
                let (kind, e) = match &t.proto {
                    Some(p) if p.proto_id == 0 && p.opcode == 0x10 => ("sack", p.exch_id),
                    Some(p) if p.proto_id == 0 && p.opcode == 0x40 && t.encrypted && p.payload.len() >= 8 && p.payload[6] == 3 && p.payload[7] == 0 => ("close", p.exch_id),
                    Some(p) if p.proto_id == 0 && p.opcode == 0x40 => ("status", p.exch_id),
                    Some(p) if p.proto_id == PROTO && p.opcode == 0x70 => ("own", p.exch_id),
                    Some(p) if p.proto_id == PROTO => ("reply", p.exch_id),
                    Some(p) => ("other", p.exch_id),
                    None => ("other", 0),
                };
                let e = if e >= 100 && e < 110 { (e - 100) as u32 } else if e == 900 { 900 } else { e as u32 };
                if kind == "reply" && e == 900 {
                    probe_answered = true;
                    out.push(json!({"ev": "ProbeAnswered", "t": t.t_ms, "seq": d.seq}));
                }
                let ws = if t.encrypted && t.sess_id >= 20 { (t.sess_id - 20) as u32 } else { 0 };
                let gone: Vec<u32> = (1..=3u32).filter(|ss| !b.with_state(|st| st.verif_snapshot().sessions.sessions.iter().any(|x| x.local_sess_id == 10 + *ss as u16))).collect();
                out.push(json!({"ev": "Tx", "kind": kind, "s": ws, "e": e, "secured": t.encrypted, "gone": gone, "t": t.t_ms, "seq": d.seq}));
            }
        }
        {
            let mut all: Vec<Value> = events.borrow_mut().drain(..).chain(out.drain(..)).collect();
            all.sort_by_key(|e| e["seq"].as_u64().unwrap_or(0));
            for mut e in all {
                if e["ev"] == "AppRx" {
                    // how long the message had been in the device's receive buffer when the application got it
                    let key = e["sq"].as_u64().and_then(|q| sent.get(&(q as u8)).copied());
                    let read = key.and_then(|(sid, c)| net.borrow().reads.iter().find(|r| r.0 == 1 && r.2 == sid && r.3 == c).map(|r| r.1));
                    e["waited"] = json!(read.map(|r| e["t"].as_u64().unwrap_or(0) as i64 - r as i64).unwrap_or(-1));
                }
                tr.ev(e);
            }
        }
        // let the device settle a little between injections (its handlers run at the same virtual instant)
        if settle > 0 {
            settle -= 1;
            return Step::AdvanceMs(3);
        }
        match phase {
            0 => {
                if opi >= ops.len() {
                    // accept deadlines, holds and retransmission budgets run out - timer by timer
                    if wait_until == 0 {
                        wait_until = sim::now_ms() + 8000;
                    }
                    if sim::now_ms() < wait_until {
                        return if sim::next_timer_ms().map(|t| t <= wait_until).unwrap_or(false) { Step::NextTimer } else { Step::AdvanceMs(wait_until - sim::now_ms()) };
                    }
                    phase = 1;
                    return Step::Poll;
                }
                let op = &ops[opi];
                opi += 1;
                n_inj += 1;
                settle = 1;
                match op["op"].as_str().unwrap() {
                    "Pkt" => {
                        let e = op["e"].as_u64().unwrap() as u8;
                        let ss = op["s"].as_u64().unwrap_or(1) as u8;
                        let (init, rel) = (op["init"].as_bool().unwrap(), op["rel"].as_bool().unwrap());
                        seqno = seqno.wrapping_add(1);
                        ctr[ss as usize - 1] += 1;
                        // does the device (still) have that session?  an observation of the real state, not a guess
                        let alive = b.with_state(|st| st.verif_snapshot().sessions.sessions.iter().any(|x| x.local_sess_id == 10 + ss as u16));
                        let kind = if alive { "data" } else { "dataNoSession" };
                        tr.ev(json!({"ev": "Inj", "kind": kind, "s": ss, "e": e, "init": init, "rel": rel, "t": sim::now_ms()}));
                        sent.insert(seqno, (10 + ss as u16, ctr[ss as usize - 1]));
                        Step::Inject { src: 0, dst: 1, data: craft(ss, ctr[ss as usize - 1], 100 + e as u16, init, rel, PROTO, 1, &[e, seqno, ss, init as u8, e, 0]) }
                    }
                    "DevInit" => {
                        dev_cmd.borrow_mut().push_back(op["s"].as_u64().unwrap_or(1) as u8);
                        if let Some(w) = dev_waker.borrow_mut().take() {
                            w.wake();
                        }
                        settle = 3;
                        Step::Poll
                    }
                    "PktSame" => {
                        // a datagram on the exchange id of the device's own initiator exchange: its answer (init = false),
                        // or the first message of an exchange the peer happens to open under the same id (init = true)
                        let ss = op["s"].as_u64().unwrap_or(1) as u8;
                        let (init, rel) = (op["init"].as_bool().unwrap(), op["rel"].as_bool().unwrap_or(false));
                        let eid = dev_exch.get();
                        seqno = seqno.wrapping_add(1);
                        ctr[ss as usize - 1] += 1;
                        let alive = b.with_state(|st| st.verif_snapshot().sessions.sessions.iter().any(|x| x.local_sess_id == 10 + ss as u16));
                        tr.ev(json!({"ev": "Inj", "kind": if alive { "data" } else { "dataNoSession" }, "s": ss, "e": unmap(eid), "init": init, "rel": rel, "t": sim::now_ms()}));
                        sent.insert(seqno, (10 + ss as u16, ctr[ss as usize - 1]));
                        let tagb = unmap(eid).to_le_bytes();
                        Step::Inject { src: 0, dst: 1, data: craft(ss, ctr[ss as usize - 1], eid, init, rel, PROTO, 1, &[1, seqno, ss, init as u8, tagb[0], tagb[1]]) }
                    }
                    "Stray" | "CloseSession" => {
                        // a secured datagram for a session the device never had
                        tr.ev(json!({"ev": "Inj", "kind": "dataNoSession", "s": 4, "e": 0, "init": true, "rel": true, "t": sim::now_ms()}));
                        Step::Inject { src: 0, dst: 1, data: craft(4, 77, 160, true, true, PROTO, 1, &[9, 9, 4]) }
                    }
                    "Unsec" => {
                        tr.ev(json!({"ev": "Inj", "kind": "unsecStatus", "s": 0, "e": 0, "init": false, "rel": false, "t": sim::now_ms()}));
                        Step::Inject { src: 0, dst: 1, data: unsecured_status() }
                    }
                    "Wait" => Step::AdvanceMs(op["ms"].as_u64().unwrap()),
                    o => panic!("op {o}"),
                }
            }
            1 => {
                // the probe: a fresh request on the third session
                phase = 2;
                ctr[2] += 1;
                tr.ev(json!({"ev": "ProbeSent", "t": sim::now_ms()}));
                settle = 2;
                Step::Inject { src: 0, dst: 1, data: craft(3, ctr[2], 900, true, false, PROTO, 1, &[200, 0, 3, 1, 0x84, 0x03]) }
            }
            2 => {
                if !probe_wait_set {
                    probe_wait_set = true;
                    wait_until = sim::now_ms() + 20_000;
                }
                if sim::now_ms() < wait_until && sim::next_timer_ms().map(|t| t <= wait_until).unwrap_or(false) {
                    return Step::NextTimer;
                }
                phase = 3;
                Step::Poll
            }
            _ => Step::Stop,
        }
    });
    let left = b.with_state(|s| s.verif_snapshot().sessions.sessions.iter().map(|x| x.exchanges.len()).sum::<usize>());
    let gone: Vec<u32> = (1..=3u32).filter(|ss| !b.with_state(|st| st.verif_snapshot().sessions.sessions.iter().any(|x| x.local_sess_id == 10 + *ss as u16))).collect();
    for e in events.borrow_mut().drain(..) {
        tr.ev(e);
    }
    let detail: Vec<String> = b.with_state(|s| s.verif_snapshot().sessions.sessions.iter().flat_map(|x| x.exchanges.iter().map(move |e| format!("sess{} exch{} role{} retrans{:?} ack{:?}", x.local_sess_id, e.exch_id, e.role, e.retrans, e.ack))).collect());
    tr.ev(json!({"ev": "End", "left": left, "gone": gone, "detail": detail, "how": format!("{:?}", end), "probe_answered": probe_answered}));
    (n_inj, format!("{:?}", end))
}

pub fn run(args: &[String]) -> i32 {
    let mut behaviours = read_ndjson(&arg(args, "--behaviours").expect("--behaviours"));
    // harness-made schedules: unsecured status reports that belong to nothing (before, between and after real traffic)
    behaviours.push(json!([{"op": "Policy", "p": ["reply", "reply", "reply"]}, {"op": "Unsec"}, {"op": "Pkt", "s": 1, "e": 1, "init": true, "rel": true}, {"op": "Unsec"}, {"op": "Unsec"}]));
    behaviours.push(json!([{"op": "Policy", "p": ["hold", "drop", "reply"]}, {"op": "Pkt", "s": 1, "e": 1, "init": true, "rel": true}, {"op": "Pkt", "s": 1, "e": 2, "init": true, "rel": true},
                           {"op": "Pkt", "s": 2, "e": 3, "init": true, "rel": true}, {"op": "Unsec"}, {"op": "Stray"}, {"op": "Pkt", "s": 1, "e": 3, "init": true, "rel": true}, {"op": "Unsec"}]));
    // the same exchange id live on two sessions while the first owner is waiting for its next message
    behaviours.push(json!([{"op": "Policy", "p": ["hold", "hold", "reply"]}, {"op": "Pkt", "s": 1, "e": 1, "init": true, "rel": false}, {"op": "Pkt", "s": 2, "e": 1, "init": true, "rel": false},
                           {"op": "Pkt", "s": 2, "e": 1, "init": true, "rel": true}, {"op": "Pkt", "s": 1, "e": 1, "init": true, "rel": true}]));
    // a message parked for accept (both handlers busy) while its session is closed by a dropped exchange with a pending retransmission
    behaviours.push(json!([{"op": "Policy", "p": ["hold", "relDrop", "reply"]}, {"op": "Pkt", "s": 1, "e": 1, "init": true, "rel": false}, {"op": "Pkt", "s": 1, "e": 2, "init": true, "rel": false},
                           {"op": "Pkt", "s": 1, "e": 3, "init": true, "rel": true}, {"op": "Pkt", "s": 2, "e": 3, "init": true, "rel": true}]));
    behaviours.push(json!([{"op": "Policy", "p": ["hold", "hold", "relDrop"]}, {"op": "Pkt", "s": 1, "e": 3, "init": true, "rel": false}, {"op": "Pkt", "s": 2, "e": 1, "init": true, "rel": false}, {"op": "Pkt", "s": 2, "e": 2, "init": true, "rel": false},
                           {"op": "Pkt", "s": 1, "e": 1, "init": true, "rel": true}, {"op": "Pkt", "s": 1, "e": 2, "init": true, "rel": true}]));
    // both handlers busy while exchanges are opened by messages that ask for no acknowledgement: the accept deadline
    // has to clear the receive slot all the same
    behaviours.push(json!([{"op": "Policy", "p": ["hold", "hold", "reply"]}, {"op": "Pkt", "s": 1, "e": 1, "init": true, "rel": true}, {"op": "Pkt", "s": 2, "e": 2, "init": true, "rel": true},
                           {"op": "Pkt", "s": 1, "e": 3, "init": true, "rel": false}, {"op": "Wait", "ms": 1600}, {"op": "Pkt", "s": 2, "e": 3, "init": true, "rel": false}, {"op": "Wait", "ms": 1600},
                           {"op": "Pkt", "s": 2, "e": 3, "init": true, "rel": true}]));
    behaviours.push(json!([{"op": "Policy", "p": ["hold", "hold", "hold"]}, {"op": "Pkt", "s": 1, "e": 1, "init": true, "rel": false}, {"op": "Pkt", "s": 1, "e": 2, "init": true, "rel": false},
                           {"op": "Pkt", "s": 1, "e": 3, "init": true, "rel": false}, {"op": "Pkt", "s": 2, "e": 3, "init": true, "rel": false}, {"op": "Wait", "ms": 2500},
                           {"op": "Pkt", "s": 2, "e": 1, "init": true, "rel": false}]));
    // the device's own initiator exchange and an exchange the peer opens under the same id on the same session: the
    // answer (no initiator flag) goes to the device's application, the peer's first message to a handler
    for rel in [false, true] {
        behaviours.push(json!([{"op": "Policy", "p": ["reply", "reply", "reply"]}, {"op": "DevInit", "s": 1}, {"op": "PktSame", "s": 1, "init": false, "rel": rel},
                               {"op": "PktSame", "s": 1, "init": true, "rel": rel}, {"op": "PktSame", "s": 1, "init": false, "rel": rel}, {"op": "Pkt", "s": 1, "e": 2, "init": true, "rel": true}]));
        behaviours.push(json!([{"op": "Policy", "p": ["hold", "reply", "reply"]}, {"op": "DevInit", "s": 2}, {"op": "PktSame", "s": 2, "init": true, "rel": rel}, {"op": "PktSame", "s": 2, "init": true, "rel": rel},
                               {"op": "PktSame", "s": 2, "init": false, "rel": rel}, {"op": "PktSame", "s": 1, "init": true, "rel": rel}, {"op": "Wait", "ms": 3500}, {"op": "PktSame", "s": 2, "init": false, "rel": rel}]));
    }
    let mut tr = Trace::create(&arg(args, "--out").expect("--out"));
    let mut n = 0usize;
    for (bi, b) in behaviours.iter().enumerate() {
        tr.ev(json!({"ev": "Reset", "run": bi}));
        let (k, _) = one_run(b.as_array().unwrap(), &mut tr);
        n += k;
    }
    tr.finish();
    println!("{}", json!({"behaviours": behaviours.len(), "injections": n}));
    0
}
